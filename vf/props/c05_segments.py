"""C05 Frame segmentation: any chunking of the byte stream yields the original frames.

Explicit-state BFS over the real YowNoiseSegmentsLayer (hosted in a real
YowStack between two recording layers).  State = (bytes consumed, the layer's
real _read_buffer, frames delivered so far); transition = feed the next chunk of
n bytes.  States are hashed on the real buffer and the real output, so BFS with
deduplication covers all 2^(L-1) chunkings of a stream of length L in O(L^2)
transitions; merged states have the same future by construction (same remaining
input, same buffer, same outputs).
"""
import itertools
import struct

from vf import env
env.bootstrap()

from yowsup.layers import YowLayer
from yowsup.stacks.yowstack import YowStack
from yowsup.layers.noise.layer_noise_segments import YowNoiseSegmentsLayer
from vf.explore.bfs import bfs, simple_state

PROPERTY = "C05"
LEVEL = "model_checking"


class Top(YowLayer):
    def __init__(self):
        YowLayer.__init__(self)
        self.got = []

    def receive(self, data):
        self.got.append(data)


class Bottom(YowLayer):
    def __init__(self):
        YowLayer.__init__(self)
        self.sent = []

    def send(self, data):
        self.sent.append(bytes(data))


def make(enabled=True):
    stack = YowStack((Bottom, YowNoiseSegmentsLayer, Top), reversed=False,
                     props={YowNoiseSegmentsLayer.PROP_ENABLED: enabled})
    return stack, stack.getLayer(0), stack.getLayer(1), stack.getLayer(2)


def ref_frame(payload):
    """Reference framing, written from the statement: 3-byte big-endian length + payload."""
    n = len(payload)
    return bytes([(n >> 16) & 0xFF, (n >> 8) & 0xFF, n & 0xFF]) + payload


def payload(i, n):
    # distinct, position-revealing content; deliberately contains bytes that look like headers
    return bytes(((i * 37 + j * 11 + (0 if j % 5 else 0)) & 0xFF) for j in range(n))


class St(object):
    pass


def explore_stream(frames, chunk_sizes_at, label):
    """BFS over every chunking allowed by chunk_sizes_at(pos, remaining)."""
    stream = b"".join(ref_frame(f) for f in frames)
    L = len(stream)
    ends = list(itertools.accumulate(len(ref_frame(f)) for f in frames))

    def build(hist):
        stack, bot, seg, top = make(True)
        pos = 0
        err = None
        for n in hist:
            try:
                seg.receive(stream[pos:pos + n])
            except Exception as e:     # pragma: no cover - reported as violation
                err = "%s: %s" % (type(e).__name__, e)
                break
            pos += n
        s = St()
        s.pos, s.seg, s.top, s.err, s.bot = pos, seg, top, err, bot
        return s

    def enabled(s, hist):
        return chunk_sizes_at(s.pos, L - s.pos)

    def canon(s):
        # every plain-data attribute of the real layer, not only the buffer: histories are merged only when the
        # layer holds no state that tells them apart (a remembered frame size, a flag, ...)
        return (s.pos, simple_state(s.seg), len(s.top.got), s.err)

    def check(s, hist):
        out = []
        case = {"frames": [len(f) for f in frames], "chunks": list(hist), "label": label}
        if s.err:
            out.append(("C05:recv-raises", "segments layer raised on a chunk: %s" % s.err, case, s.err))
            return out
        got = s.top.got
        complete = sum(1 for e in ends if e <= s.pos)
        if any(type(g) is not bytes for g in got):
            out.append(("C05:recv-type", "frame handed upward is not bytes", case, [type(g).__name__ for g in got]))
        if [bytes(g) for g in got] != frames[:len(got)] or len(got) > complete:
            out.append(("C05:recv-wrong-frames", "frames handed upward differ from the frames sent (chunks=%s)" % hist,
                        case, {"got": [bytes(g) for g in got][:4], "expected_prefix_of": [len(f) for f in frames]}))
        elif len(got) != complete:
            # every prefix that ends at a frame boundary is itself a complete stream: all its frames must be out
            if s.pos in ends or s.pos == L:
                out.append(("C05:recv-frame-withheld", "complete frame not delivered at end of stream (chunks=%s)" % hist,
                            case, {"delivered": len(got), "complete": complete}))
        if s.pos == L and not out:
            if len(s.seg._read_buffer) != 0:
                out.append(("C05:recv-residue", "bytes left buffered after the last frame", case, bytes(s.seg._read_buffer)))
        if s.bot.sent:
            out.append(("C05:recv-sends", "receive path wrote downward", case, None))
        return out

    return bfs(build, enabled, canon, check, max_depth=L + 1), L


def all_sizes(pos, rem):
    return range(1, rem + 1)


def run_recv_small(frame_lens):
    frames = [payload(i, n) for i, n in enumerate(frame_lens)]
    res, L = explore_stream(frames, all_sizes, "exhaustive")
    return (frame_lens, L, res.states, res.transitions, res.violations)


def run_recv_long(spec):
    frame_lens, window = spec
    frames = [payload(i, n) for i, n in enumerate(frame_lens)]
    stream_len = sum(3 + n for n in frame_lens)
    # interesting cut positions: +-window around every header start / header end / payload end
    marks = set([0, stream_len])
    p = 0
    for n in frame_lens:
        for b in (p, p + 3, p + 3 + n):
            for d in range(-window, window + 1):
                if 0 <= b + d <= stream_len:
                    marks.add(b + d)
        p += 3 + n
    marks = sorted(marks)

    def sizes(pos, rem):
        out = set()
        for m in marks:
            if m > pos:
                out.add(m - pos)
        for k in (1, 2, 3, 1024):
            if k <= rem:
                out.add(k)
        # small fixed sizes only near marks to keep the graph finite and small: allowed when pos is a mark
        if pos not in marks:
            out = set(m - pos for m in marks if m > pos)
        return sorted(out)

    res, L = explore_stream(frames, sizes, "long")
    return (frame_lens, L, res.states, res.transitions, res.violations)


def _compositions(n):
    """all ways to cut n bytes into non-empty chunks"""
    if n == 0:
        yield []
        return
    for first in range(1, n + 1):
        for rest in _compositions(n - first):
            yield [first] + rest


def check_reset_during_delivery(spec):
    """A new connection is announced (the layer's reset) while frame k of the old stream is being handed upward -
    e.g. the handler of that frame, or another thread, reconnects.  Whatever was left of the old connection, the
    new connection's stream must be framed from a clean state: from its first byte on exactly its frames come out."""
    old_lens, tail, k, old_chunks, new_lens = spec
    from yowsup.layers import YowLayerEvent
    from yowsup.layers.network.layer import YowNetworkLayer
    old_frames = [payload(i, n) for i, n in enumerate(old_lens)]
    old_stream = b"".join(ref_frame(f) for f in old_frames) + ref_frame(payload(9, 5))[:tail]
    new_frames = [payload(20 + i, n) for i, n in enumerate(new_lens)]
    new_stream = b"".join(ref_frame(f) for f in new_frames)
    vs = []
    for new_chunks in _compositions(len(new_stream)):
        stack, bot, seg, top = make(True)
        st = {"n": 0, "reset_at": None}
        orig = top.receive

        def receive(data, st=st, seg=seg, top=top, orig=orig):
            orig(data)
            if st["reset_at"] is None and st["n"] == k:
                st["reset_at"] = len(top.got)
                seg.onEvent(YowLayerEvent(YowNetworkLayer.EVENT_STATE_CONNECTED))
            st["n"] += 1
        top.receive = receive
        case = {"reset_during_delivery": {"old_frames": old_lens, "old_tail": tail, "reset_in_frame": k,
                                          "old_chunks": old_chunks, "new_frames": new_lens, "new_chunks": new_chunks}}
        try:
            p = 0
            for n in old_chunks:
                seg.receive(old_stream[p:p + n])
                p += n
                if st["reset_at"] is not None:
                    break           # the old connection is gone: none of its bytes arrive after the new one is announced
            if st["reset_at"] is None:
                break               # this old chunking never delivered frame k: nothing to check
            mark = len(top.got)
            p = 0
            for n in new_chunks:
                seg.receive(new_stream[p:p + n])
                p += n
        except Exception as e:
            vs.append(("C05:reset-raises", "segments layer raised: %s: %s" % (type(e).__name__, e), case, None))
            break
        got_new = [bytes(g) for g in top.got[mark:]]
        if got_new != new_frames:
            vs.append(("C05:reset-stale-bytes", "after a connection reset that arrived while a frame was being handed upward, the new "
                       "connection's stream was not framed from a clean state", case,
                       {"got": got_new[:4], "expected": new_frames[:4]}))
            break
        if len(seg._read_buffer):
            vs.append(("C05:reset-residue", "bytes left buffered after the new connection's last frame", case, bytes(seg._read_buffer)))
            break
    return vs


def reset_specs(quick):
    out = []
    for old_lens in ([1, 2], [2, 1, 1]) if quick else ([1, 2], [2, 1, 1], [1, 1], [3, 2, 1]):
        for tail in (0, 2, 4):
            L = sum(3 + n for n in old_lens) + tail
            for k in range(len(old_lens)):
                olds = [[L]] + [[a, L - a] for a in range(1, L)]
                for oc in olds:
                    for new_lens in ([1, 2],) if quick else ([1, 2], [2], [1, 1, 1]):
                        out.append((old_lens, tail, k, oc, list(new_lens)))
    return out


SEND_SIZES = [0, 1, 2, 255, 256, 65535, 65536, (1 << 24) - 1, 1 << 24, (1 << 24) + 1]


def check_send(n, enabled):
    vs = []
    stack, bot, seg, top = make(enabled)
    data = bytes((i * 7) & 0xFF for i in range(min(n, 4096)))
    data = (data * (n // max(1, len(data)) + 1))[:n] if n else b""
    case = {"send_len": n, "enabled": enabled}
    try:
        seg.send(data)
        raised = None
    except Exception as e:
        raised = e
    wire = b"".join(bot.sent)
    if n >= (1 << 24):
        if raised is None:
            vs.append(("C05:send-oversize-accepted", "payload of %d bytes was not refused" % n, case, None))
        if wire:
            vs.append(("C05:send-oversize-emits", "refused payload still wrote %d bytes" % len(wire), case, None))
    else:
        if raised is not None:
            vs.append(("C05:send-raises", "send raised for %d bytes: %r" % (n, raised), case, None))
        else:
            exp = ref_frame(data) if enabled else data
            if wire != exp:
                vs.append(("C05:send-wrong-bytes", "bytes written for a %d-byte payload differ from length||payload" % n,
                           case, {"head": wire[:8], "expected_head": exp[:8], "len": len(wire), "expected_len": len(exp)}))
    if top.got:
        vs.append(("C05:send-receives", "send path delivered upward", case, None))
    return vs


def run(ctx):
    quick = ctx.quick
    maxlen = 5 if quick else 6
    nframes = 3
    seqs = []
    for k in range(1, nframes + 1):
        for lens in itertools.product(range(1, maxlen + 1), repeat=k):
            seqs.append(list(lens))
    if not quick:
        for lens in itertools.product((1, 2, 3), repeat=4):
            seqs.append(list(lens))
    from vf.runner import shuffled
    seqs = shuffled(seqs, ctx.seed, "c05")
    states = transitions = 0
    chunkings = 0
    outcomes = set()
    for lens, L, s, t, vs in ctx.pimap(run_recv_small, seqs, chunksize=4):
        states += s
        transitions += t
        chunkings += 2 ** (L - 1)
        outcomes.add((tuple(lens), bool(vs)))
        ctx.add_violations(vs)
    ctx.sample({"frames": seqs[0], "all_chunkings_of_stream_len": sum(3 + n for n in seqs[0])})

    big = [([255], 4), ([256], 4), ([65535], 3), ([65536], 3), ([70000], 3),
           ([255, 256], 3), ([1, 65536, 2], 2), ([300, 1, 300], 2)]
    if not quick:
        big += [([65535, 65536], 3), ([70000, 1, 70000], 2), ([256, 255, 1, 2], 3), ([(1 << 16) + 258], 4),
                ([1000, 1000, 1000], 3)]
    long_states = long_trans = 0
    for lens, L, s, t, vs in ctx.pimap(run_recv_long, big):
        long_states += s
        long_trans += t
        ctx.add_violations(vs)
    ctx.sample({"long_frames": big[0][0], "cut_window": big[0][1]})

    # pass-through mode (framing switched off by the noise layer before the prologue)
    stack, bot, seg, top = make(False)
    for ch in (b"a", b"\x00\x00\x01x", b"WA\x04\x00"):
        seg.receive(ch)
    if top.got != [b"a", b"\x00\x00\x01x", b"WA\x04\x00"]:
        ctx.violation("C05:disabled-not-passthrough", "with framing disabled data is not passed through unchanged")

    # a connection reset that arrives while a frame is being handed upward
    rspecs = reset_specs(quick)
    nreset = 0
    for vs in ctx.pimap(check_reset_during_delivery, rspecs, chunksize=8):
        nreset += 1
        ctx.add_violations(vs)
    ctx.coverage["reset_during_delivery_cases"] = nreset

    send_cases = [(n, en) for n in SEND_SIZES for en in (True, False)]
    nsend = 0
    for vs in ctx.pimap(check_send_star, send_cases):
        nsend += 1
        ctx.add_violations(vs)
    ctx.sample({"send_len": SEND_SIZES, "enabled": [True, False]})

    ctx.coverage.update({
        "states": states + long_states,
        "transitions": transitions + long_trans,
        "traces_validated_against_impl": transitions + long_trans + nsend,
        "exhaustive": True,
        "streams_exhaustive": len(seqs),
        "chunkings_covered_by_exhaustive_part": chunkings,
        "streams_long": len(big),
        "send_cases": nsend,
        "bound": "all sequences of <=%d frames with payload 1..%d bytes, every chunking; long streams with cuts within +-w of every boundary" % (nframes, maxlen),
        "distinct_outcomes": len(outcomes),
        "explanation": "every transition is a call of the real YowNoiseSegmentsLayer.receive on a fresh stack with the history replayed; no separate model",
    })
    ctx.assume("frame payloads are position-derived byte patterns; the layer never inspects payload bytes")


def check_send_star(a):
    return check_send(*a)


def replay(ctx, case):
    if "reset_during_delivery" in case:
        r = case["reset_during_delivery"]
        return check_reset_during_delivery((r["old_frames"], r["old_tail"], r["reset_in_frame"], r["old_chunks"], r["new_frames"]))
    if "send_len" in case:
        return check_send(case["send_len"], case["enabled"])
    frames = [payload(i, n) for i, n in enumerate(case["frames"])]
    chunks = case["chunks"]
    # replay exactly this chunking: a one-path exploration
    idx = {"i": 0}

    def sizes(pos, rem):
        p = 0
        for i, c in enumerate(chunks):
            if p == pos:
                return [c]
            p += c
        return []
    res, L = explore_stream(frames, sizes, "replay")
    return res.violations
