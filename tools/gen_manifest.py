#!/venv/bin/python
"""Regenerate MANIFEST.json from the per-property metadata below and from which check modules exist."""
import json, os, sys
sys.path.insert(0, "/verif")
from vf.runner import MODULES
ROOT = "/verif"

META = {
 "C01": ("exploration", "bounded-exhaustive enumeration of stanza trees through the real encoder+decoder",
         "Every tree of a small-scope grammar (every dictionary token, packed strings of every length 1..255, all length/list-size classes, big-node positions) is encoded and decoded by the real codec and compared with strict structural equality; exhaustive over the stated grammar, not over all trees.",
         "Strings/sizes outside the enumerated classes are not covered; equality is the harness's strict one, not ProtocolTreeNode.__eq__.", "3/C01"),
 "C02": ("exploration", "differential enumeration against an independent reference codec, all encoder choice vectors up to a deviation bound",
         "Library bytes are decoded by an independently written reference codec, and every reference encoding with <=k deviations from canonical choices is decoded by the library; the dictionary is compared entry by entry with a frozen reference table.",
         "Reference token table is a frozen snapshot (no second source offline); anchored by structural checks.", "3/C02"),
 "C03": ("model_checking", "stateless exploration of all server schedules and faults (deviation-bounded) over real client stacks",
         "Real protocol+encryption layers of 2-4 accounts run against a stanza-level server double; every conversation script of the grammar is executed under every server schedule with <=k deviations (reorder, duplicate, corrupt) and the exactly-once/ciphertext-only oracle is evaluated on every execution.",
         "Server double is trusted; python-axolotl treated as correct; bounds on script length and deviations stated in evidence.", "3/C03"),
 "C04": ("model_checking", "controlled-scheduler exploration of thread interleavings (preemption-bounded) x chunkings x variants on the real noise stack",
         "The real network/segments/noise/coder layers and the library's handshake thread run under a scheduler owned by the harness against a Noise responder double; all interleavings up to the preemption bound are executed for every variant/chunking/history of the alphabet (quick: bound 1; thorough: bound 1 on 102 cases, line-granularity points on the cut-off histories, bound 2 on a 13-case core, every phase run to completion).",
         "Scheduling points at lock/queue operations and layer calls, environment points where the loop thread waits for the next socket event; Noise responder double and dissononce trusted.", "3/C04"),
 "C05": ("model_checking", "explicit-state BFS over all chunkings on the real segments layer",
         "State = (position, real read buffer, frames delivered); BFS with deduplication covers every chunking of every stream of <=3 frames with 1..5(6) byte payloads, plus boundary-window chunkings of long streams (255..70000 B), and all send size classes incl. the 2^24 limit.",
         "Payload bytes are patterns; layer does not inspect them.", "3/C05"),
 "C06": ("exploration", "enumeration of all stanza/entity kinds x 32 stack configurations on the real assembled stack",
         "Each kind of a hand-written routing table is pushed through the really assembled default protocol layers for all 16 module selections with and without encryption layers; exactly-one/none oracles per kind; ordered pairs of kinds on one stack are compared with the second stanza's handling on a fresh stack.",
         "Routing table (reference model) is hand-written from the statement and the layers' documented kinds.", "3/C06"),
 "C07": ("exploration", "enumeration of notification/call/ping/unpresentable-message kinds x 32 configurations",
         "Every stanza kind of the quantifier is injected into the assembled stack for each configuration and the stanzas sent down are compared with the required single acknowledgement.",
         "Kind table hand-written from the statement.", "3/C07"),
 "C08": ("model_checking", "explicit-state BFS over request/reply histories on the real stack registries",
         "All histories up to a depth over request(kind)/reply(i,result|error)/dup/unknown/noise events are executed on the real assembled stack; callback counts and registry contents compared with a dict model after every event; plus a controlled-scheduler part: the application thread runs _sendIq on the real noise stack while the network thread hands the reply up, all interleavings at preemption bound 1 / 2.",
         "Reply stanzas generated from reference shapes; canonical state abstracts ids to issue ranks.", "3/C08"),
 "C09": ("exploration", "shape-spec driven enumeration of all optional-part subsets x value vectors per entity class",
         "For every entity class reachable from a layer handler, all presence subsets of optional parts x 3 value vectors are converted stanza->entity->stanza (incoming) or entity->stanza->codec->stanza (outgoing) and compared strictly.",
         "Shape specs written from docstrings/fixtures; full value product not enumerated.", "3/C09"),
 "C10": ("exploration", "enumeration of all optional-field subsets x value alphabets through converter and protobuf",
         "Every attribute class x every subset of optional fields x value vectors round-trips attribute->bytes->attribute, and reference-built protobufs round-trip proto->attribute->proto by value.",
         "Pure-python protobuf trusted; values from finite alphabets.", "3/C10"),
 "C11": ("model_checking", "controlled-scheduler exploration of sender-thread interleavings (preemption-bounded) with a strict decrypting peer",
         "2-4 sender threads run through the real coder/noise/segments/network layers under the harness scheduler; every interleaving up to the preemption bound is executed and the wire byte stream is parsed and decrypted in order by a strict peer (quick: bound 1; thorough: bound 1 on 14 configurations, line-granularity points on the small ones, bound 2 on the configurations whose space completes); a second part runs the real asyncore dispatcher over a scripted socket (short writes) with a sender thread against the dispatcher's loop thread at statement granularity.",
         "Scheduling points at lock/queue/layer-call granularity; environment points between socket events.", "3/C11"),
 "C12": ("fault_enumeration", "fault-site x position x follow-up enumeration with controlled-scheduler exploration of follow-up threads",
         "For every layer of the stack, direction and position in a short operation sequence a failure is injected (or provoked naturally); follow-ups from the same and other threads must complete and all locks be free; interleavings explored up to the preemption bound.",
         "Injected faults are exceptions raised at layer send/receive entry.", "3/C12"),
 "C13": ("fault_enumeration", "BFS over store-operation histories + enumeration of every statement/commit boundary as crash point",
         "All operation sequences up to a depth on the real LiteAxolotlStore are compared with a dict model incl. reopen; for every history every sqlite statement/commit boundary of the last operation is snapshotted as a crash and the recovered store must equal the model before or after.",
         "Process-death crash model; sqlite's own commit atomicity trusted.", "3/C13"),
 "C14": ("model_checking", "explicit-state BFS over login/upload/restart histories on the real control layer + store",
         "All event histories up to a depth over connect/auth/key-request/upload result|error|loss/restart/consume run on the real AxolotlControlLayer, manager and sqlite store against a server key directory double; invariants evaluated in every state.",
         "Small batch sizes via class attributes; key bytes abstracted in the canonical state.", "3/C14"),
 "C15": ("exploration", "exhaustive enumeration of lengths/patterns/kinds and of every single-byte tamper and truncation, differential vs reference cipher",
         "All plaintext lengths 0..80 and block-boundary triples up to 64 KiB x patterns x kinds x keys are round-tripped and compared byte-for-byte with an independent HKDF/AES-CBC/HMAC implementation; every byte position x masks and every truncation must be rejected.",
         "`cryptography` primitives trusted; keys from a fixed set.", "3/C15"),
 "C16": ("model_checking", "explicit-state BFS over connection-event histories on the real full stack with a lifecycle monitor automaton",
         "All event histories up to a depth over the lifecycle alphabet are executed on the real default stack (network..interface) with dispatcher and Noise doubles; a reference automaton checks alternation, no-write-while-down, reconnect and keep-alive rules in every state; the dispatcher double's callback discipline is checked on the real asyncore dispatcher over loopback for all scripts up to depth 2 / 3; an interleaving part runs an application-thread disconnect against the loop thread (deferred announcement, reconnect, fresh login) under the controlled scheduler at preemption bound 1 / 2.",
         "Dispatcher double conformance-checked against the real dispatcher classes.", "3/C16"),
 "C17": ("model_checking", "exhaustive enumeration of publish/reinstall/send/restart histories on real stacks",
         "All histories up to a length for 2-3 accounts with autotrust on/off run on real stacks against the server double; pin invariants evaluated after every event.",
         "No state merging (ratchet state not abstractable).", "3/C17"),
 "C18": ("exploration", "enumeration of all stack shapes x construction paths x emitter/consumer positions vs a reference propagation model",
         "All shapes up to depth 6 with parallel groups of 1-4 are built through every construction path and probed with data and events from every position; call order/multiplicity compared with a list-walk model; default helpers for all flag combinations.",
         "Reference propagation model hand-written from the statement.", "3/C18"),
 "C19": ("fault_enumeration", "enumeration of field subsets x formats x load paths + every write boundary (torn writes) as crash point",
         "All optional-field subsets x value vectors x formats x load paths round-trip through real ConfigManager/YowProfile; the save path runs over an instrumented file layer and every prefix of every write and every rename boundary is loaded back.",
         "Process-death crash model.", "3/C19"),
 "C20": ("exploration", "exhaustive enumeration of small phone/parameter alphabets vs independent stdlib/cryptography computations",
         "Token compared with stdlib HMAC-SHA1 for all digit strings of length 1..4 and realistic lengths; percent-encoding for every byte, every Unicode scalar singly and pairs; ENC blob decrypted with independent X25519+AES-GCM.",
         "Class digest/signature constants taken from the env object.", "3/C20"),
}

def main():
    BUILT = set(open(os.path.join(ROOT, "tools", "built.txt")).read().split())
    checks, na = [], []
    for pid in sorted(MODULES):
        mod = os.path.join(ROOT, "vf", "props", MODULES[pid] + ".py")
        cat, tech, text, note, ref = META[pid]
        if os.path.isfile(mod) and pid in BUILT:
            checks.append({
                "property_id": pid,
                "quick_cmd": "./check %s --tier quick" % pid,
                "thorough_cmd": "./check %s --tier thorough" % pid,
                "evidence_file": "/verif/evidence/%s.json" % pid,
                "replay_cmd_template": "./check %s --replay {path}" % pid,
                "engine": "vf",
                "level_claimed": {"category": cat, "text": text, "design_ref": "DESIGN.md section " + ref},
                "level_note": note,
                "technique": tech,
            })
        else:
            na.append({"property_id": pid, "reason": "check not built yet at this commit (design in DESIGN.md section %s); not claimed until it exists" % ref})
    m = {
        "version": 1,
        "setup_cmd": "mkdir -p .deps && /venv/bin/python -m zipfile -e /opt/veriftools/wheels/six-1.17.0-py2.py3-none-any.whl .deps",
        "hooks": {
            "guard": "YOWSUP_VERIF",
            "enable": "no source hooks: checks import /repo's working tree directly and rebind module-level names from the harness (YOWSUP_VERIF=1 is exported by ./check for the interface's sake)",
            "baseline_off_cmd": "cd /repo && /venv/bin/python -m pytest -ra -q -p no:cacheprovider --timeout=900 --continue-on-collection-errors",
            "source_commits": [],
            "add_only": True,
        },
        "engines": [
            {"name": "vf", "path": "/verif/vf", "serves_properties": [c["property_id"] for c in checks],
             "kind_free_text": "hand-written explicit-state / stateless explorers running the real yowsup code: BFS over event histories, controlled thread scheduler with preemption bounding, crash-point enumerator, bounded-exhaustive input enumerators"},
        ],
        "checks": checks,
        "not_applicable": na,
        "notes": "All checks run /repo's current working tree in-process (no build step). VERIF_SEED permutes visiting order only. known_findings.json lists recorded genuine defects.",
    }
    with open(os.path.join(ROOT, "MANIFEST.json"), "w") as f:
        json.dump(m, f, indent=1)
        f.write("\n")
    print("claimed:", [c["property_id"] for c in checks])

main()
