#!/bin/sh
# usage: tools/evalwave.sh <srcdir> <offset> <prop> [checks]   - evaluates change1/2 of <prop> from <srcdir> as <prop>-(offset+k)
src=$1; off=$2; p=$3; ch=${4:-$3}
for k in 1 2; do /verif/tools/seedeval.py $p $k --src $src --as $((k+off)) --checks $ch >/dev/null 2>&1; python3 - <<PY
import json
m=json.load(open('/verif/seeded/$p-%d/meta.json' % ($k+$off)))
print('$p-%d' % ($k+$off), 'confirmed' if m.get('confirmed') else ('NOTCONF', m.get('patch_applies'), m.get('demo_without_change_exit'), m.get('demo_with_change_exit'), m.get('repo_suite')), {c:(v['detected'], v['signatures'][:2]) for c,v in m.get('detection',{}).items()})
PY
done
