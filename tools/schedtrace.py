#!/venv/bin/python
"""Print the scheduling points of one recorded execution (a replay file of a scheduler-based check):
which thread ran at which point, where the schedule deviates from the default, and the harness log.
usage: tools/schedtrace.py replays/C04-xxxx.json [context]"""
import sys, json, importlib
sys.path.insert(0, "/verif")
from vf import runner
from vf.explore import sched as S, dfs

rep = json.load(open(sys.argv[1]))
ctxn = int(sys.argv[2]) if len(sys.argv) > 2 else 12
mod = importlib.import_module("vf.props." + runner.MODULES[rep["property"]])
last = {}
Orig = S.Scheduler


class Rec(Orig):
    def __init__(self, *a, **k):
        Orig.__init__(self, *a, **k)
        last["s"] = self


S.Scheduler = Rec
case = dict(rep["case"])
pf = dfs.schedule_from_case(case)
case.pop("schedule", None)
fn = getattr(mod, "run_case", None)
if rep["property"] == "C16":
    from vf.props import c16_race as _r
    fn = _r.run_race
pts, v, obs = fn(case, pf)
sc = last["s"]
names = {t.id: t.name for t in sc.threads}
dev = sorted(pf[1])
show = set()
for d in dev:
    show.update(range(d - ctxn, d + ctxn))
show.update(range(max(0, len(sc.points) - ctxn), len(sc.points)))
prev = None
for i, p in enumerate(sc.points):
    if i not in show:
        continue
    if prev is not None and i != prev + 1:
        print("   ...")
    prev = i
    mark = "**" if p.chosen else "  "
    print("%s%4d %-8s %-60s enabled=%s -> %s" % (mark, i, p.kind, str(p.desc)[:60], [names[t] for t in p.tids], names[p.tids[p.chosen]]))
print("violations:")
for x in v:
    print("  ", x[0], "|", x[1][:300])
print("log:")
for l in sc.log[-30:]:
    print("  ", str(l)[:300])
