#!/venv/bin/python
"""Evaluate one seeded property-breaking change produced by an independent sub-agent.
usage: seedeval.py C05 1 [--checks C05,C04] [--tier quick]
Confirms: demo passes on the unchanged tree, patch applies, repo suite still 79 passed, demo fails with the patch;
then runs the check(s) against the patched scratch worktree and records everything under /verif/seeded/<id>-<k>/.
"""
import subprocess, sys, os, json, shutil, tempfile, re, time
prop, k = sys.argv[1], sys.argv[2]
checks = [prop]
tier = "quick"
for i, a in enumerate(sys.argv):
    if a == "--checks":
        checks = sys.argv[i + 1].split(",")
    if a == "--tier":
        tier = sys.argv[i + 1]
src = "/tmp/seed-out/%s" % prop
outk = k
for i, a in enumerate(sys.argv):
    if a == "--src":
        src = os.path.join(sys.argv[i + 1], prop)
    if a == "--as":
        outk = sys.argv[i + 1]
patch = os.path.join(src, "change%s.diff" % k)
demo = os.path.join(src, "demo%s.py" % k)
notes = os.path.join(src, "notes%s.md" % k)
out = "/verif/seeded/%s-%s" % (prop, outk)
os.makedirs(out, exist_ok=True)
def sh(cmd, **kw):
    return subprocess.run(cmd, shell=True, capture_output=True, text=True, **kw)
wt = tempfile.mkdtemp(prefix="seedeval-", dir="/tmp"); os.rmdir(wt)
evd = tempfile.mkdtemp(prefix="seedev-", dir="/tmp")
prev_history = None
try:
    prev_history = json.load(open(os.path.join(out, "meta.json"))).get("history")
except Exception:
    pass
meta = {"property": prop, "change": int(k), "evaluated_at_repo_head": sh("git -C /repo rev-parse --short HEAD").stdout.strip()}
try:
    assert sh("git -C /repo worktree add -q --detach %s HEAD" % wt).returncode == 0
    env = "PYTHONPATH=/tmp/sixshim:%s" % wt
    r0 = sh("cd %s && %s timeout 300 /venv/bin/python %s" % (wt, env, demo))
    meta["demo_without_change_exit"] = r0.returncode
    ap = sh("git -C %s apply %s" % (wt, patch))
    meta["patch_applies"] = ap.returncode == 0
    if ap.returncode != 0:
        meta["apply_error"] = ap.stderr[-400:]
    else:
        t = sh("cd %s && /venv/bin/python -m pytest -q -p no:cacheprovider --continue-on-collection-errors 2>&1 | tail -1" % wt)
        meta["repo_suite"] = t.stdout.strip()
        r1 = sh("cd %s && %s timeout 300 /venv/bin/python %s" % (wt, env, demo))
        meta["demo_with_change_exit"] = r1.returncode
        meta["demo_with_change_tail"] = (r1.stdout + r1.stderr)[-500:]
        meta["confirmed"] = (r0.returncode == 0 and r1.returncode != 0 and "79 passed" in t.stdout)
        meta["detection"] = {}
        for c in checks:
            t0 = time.time()
            r = sh("cd /verif && VERIF_REPO=%s VERIF_EVIDENCE_DIR=%s VERIF_REPLAY_DIR=%s ./check %s --tier %s" % (wt, evd, evd, c, tier))
            lines = [l for l in r.stdout.splitlines() if l.startswith("  ") and not l.startswith("   ")]
            sigs = []
            for f in os.listdir(evd):
                if f.startswith(c + "-") and f.endswith(".json"):
                    try:
                        sigs.append(json.load(open(os.path.join(evd, f)))["sig"])
                    except Exception:
                        pass
                    os.remove(os.path.join(evd, f))
            meta["detection"][c] = {"exit": r.returncode, "detected": r.returncode == 1, "signatures": sorted(sigs)[:12],
                                    "first_lines": lines[:4], "wall_s": round(time.time() - t0, 1), "tier": tier}
    shutil.copy(patch, os.path.join(out, "patch.diff"))
    shutil.copy(demo, os.path.join(out, "demo.py"))
    if os.path.isfile(notes):
        shutil.copy(notes, os.path.join(out, "notes.md"))
    meta["what_it_needs"] = "see notes.md"
    if prev_history:
        meta["history"] = prev_history
    meta["ran"] = ["demo without change", "git apply", "repo test suite", "demo with change"] + ["./check %s --tier %s (VERIF_REPO=scratch worktree)" % (c, tier) for c in checks]
    json.dump(meta, open(os.path.join(out, "meta.json"), "w"), indent=1)
    print(json.dumps(meta, indent=1)[:3000])
finally:
    sh("git -C /repo worktree remove --force %s; git -C /repo worktree prune" % wt)
    shutil.rmtree(evd, ignore_errors=True)
    shutil.rmtree(wt, ignore_errors=True)
