#!/usr/bin/env python3-vt
"""Validate MANIFEST.json and every evidence file against the harness schemas (run with python3-vt)."""
import json, sys, glob, jsonschema
ok = True
m = json.load(open("/verif/MANIFEST.json"))
jsonschema.validate(m, json.load(open("/root/.vp/MANIFEST.schema.json")))
props = [json.loads(l)["id"] for l in open("/verif/properties.jsonl")]
claimed = [c["property_id"] for c in m["checks"]]
na = [c["property_id"] for c in m.get("not_applicable", [])]
assert sorted(claimed + na) == sorted(props), (claimed, na)
es = json.load(open("/root/.vp/EVIDENCE.schema.json"))
for c in m["checks"]:
    try:
        ev = json.load(open(c["evidence_file"]))
        jsonschema.validate(ev, es)
        assert ev["level"] == c["level_claimed"]["category"], "level mismatch"
        print("ok  ", c["property_id"], ev["tier"], ev["level"], ev["wall_s"])
    except Exception as e:
        ok = False
        print("BAD ", c["property_id"], str(e)[:300])
sys.exit(0 if ok else 1)
