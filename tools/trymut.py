#!/venv/bin/python
"""Apply a textual mutation (or a patch file) to /repo, run checks, revert.  Development aid only.
usage: trymut.py [--tests] (--patch FILE | FILE OLD NEW) -- C05 [C11 ...]
"""
import subprocess, sys, os
args = sys.argv[1:]
run_tests = False
if args and args[0] == "--tests":
    run_tests = True; args = args[1:]
i = args.index("--")
spec, checks = args[:i], args[i + 1:]
tier = os.environ.get("TIER", "quick")
def sh(cmd, **kw):
    return subprocess.run(cmd, shell=True, **kw)
assert sh("git -C /repo diff --quiet").returncode == 0, "/repo dirty"
try:
    if spec[0] == "--patch":
        assert sh("git -C /repo apply %s" % spec[1]).returncode == 0
    else:
        path, old, new = spec
        p = os.path.join("/repo", path)
        s = open(p).read()
        assert s.count(old) >= 1, "pattern not found"
        open(p, "w").write(s.replace(old, new, 1))
    sh("git -C /repo diff --stat")
    if run_tests:
        r = sh("cd /repo && /venv/bin/python -m pytest -q -p no:cacheprovider --continue-on-collection-errors 2>&1 | tail -3")
    for c in checks:
        r = sh("cd /verif && ./check %s --tier %s 2>&1 | tail -8" % (c, tier))
finally:
    sh("git -C /repo checkout -- . && git -C /repo status --short")
    sh("git -C /verif checkout -- evidence 2>/dev/null")
