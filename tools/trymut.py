#!/venv/bin/python
"""Apply a textual mutation (or a patch file) to a scratch worktree of /repo, run checks against it, remove it.
Development aid only; /repo itself is never touched, evidence/ is not overwritten.
usage: trymut.py [--tests] (--patch FILE | FILE OLD NEW [FILE OLD NEW ...]) -- C05 [C11 ...]
env TIER=quick|thorough
"""
import subprocess, sys, os, tempfile, shutil
args = sys.argv[1:]
run_tests = False
if args and args[0] == "--tests":
    run_tests = True; args = args[1:]
i = args.index("--")
spec, checks = args[:i], args[i + 1:]
tier = os.environ.get("TIER", "quick")
def sh(cmd, **kw):
    return subprocess.run(cmd, shell=True, **kw)
wt = tempfile.mkdtemp(prefix="mut-", dir="/tmp")
os.rmdir(wt)
evd = tempfile.mkdtemp(prefix="mutev-", dir="/tmp")
rc = 0
try:
    assert sh("git -C /repo worktree add -q --detach %s HEAD" % wt).returncode == 0
    if spec[0] == "--patch":
        assert sh("git -C %s apply %s" % (wt, os.path.abspath(spec[1]))).returncode == 0, "patch does not apply"
    else:
        while spec:
            path, old, new = spec[:3]; spec = spec[3:]
            p = os.path.join(wt, path)
            s = open(p).read()
            assert s.count(old) >= 1, "pattern not found in %s" % path
            open(p, "w").write(s.replace(old, new, 1))
    sh("git -C %s diff --stat | cat" % wt)
    if run_tests:
        sh("cd %s && /venv/bin/python -m pytest -q -p no:cacheprovider --continue-on-collection-errors 2>&1 | tail -2" % wt)
    for c in checks:
        r = sh("cd /verif && VERIF_REPO=%s VERIF_EVIDENCE_DIR=%s VERIF_REPLAY_DIR=%s ./check %s --tier %s 2>&1 | tail -%s"
               % (wt, evd, evd, c, tier, os.environ.get("TAIL", "8")))
finally:
    sh("git -C /repo worktree remove --force %s; git -C /repo worktree prune" % wt)
    shutil.rmtree(evd, ignore_errors=True)
    shutil.rmtree(wt, ignore_errors=True)
