#!/venv/bin/python
"""Regenerate seeded/SUMMARY.md from seeded/*/meta.json."""
import json, glob, os
rows = []
for d in sorted(glob.glob("/verif/seeded/C*-*")):
    mp = os.path.join(d, "meta.json")
    if not os.path.isfile(mp):
        continue
    m = json.load(open(mp))
    name = os.path.basename(d)
    notes = ""
    np_ = os.path.join(d, "notes.md")
    if os.path.isfile(np_):
        for line in open(np_):
            line = line.strip()
            if line and not line.startswith("#"):
                notes = line[:160]
                break
    det = m.get("detection", {})
    caught = [c for c, v in det.items() if v.get("detected")]
    sig = ""
    for c in caught:
        s = det[c].get("signatures") or []
        if s:
            sig = s[0]
            break
    rows.append((name, "yes" if m.get("confirmed") else ("yes at " + m["confirmed_at_earlier_head"] if m.get("confirmed_at_earlier_head") else "NO"), ", ".join(caught) if caught else "MISSED (" + ",".join(det) + ")", sig, "; ".join(m["history"]) if isinstance(m.get("history"), list) else m.get("history", ""), notes))
with open("/verif/seeded/SUMMARY.md", "w") as f:
    f.write("# Seeded property-breaking changes (independent sub-agents) and which check catches them\n\n")
    f.write("confirmed = demo passes without the change, fails with it, repo suite still 79 passed. Detection = quick tier of the named check(s) run against the patched scratch worktree.\n\n")
    f.write("| change | confirmed | caught by | first signature | history | what it is |\n|---|---|---|---|---|---|\n")
    for r in rows:
        f.write("| %s | %s | %s | `%s` | %s | %s |\n" % r)
print(open("/verif/seeded/SUMMARY.md").read()[-3000:])
