#!/bin/sh
# usage: tools/runall.sh [seed] [tier]   - runs every registered check, prints one line each
SEED=${1:-0}; TIER=${2:-quick}
cd /verif
for c in $(/venv/bin/python -c "import json;print(' '.join(x['property_id'] for x in json.load(open('MANIFEST.json'))['checks']))"); do
  s=$(date +%s)
  out=$(VERIF_SEED=$SEED ./check $c --tier $TIER 2>&1); rc=$?
  e=$(date +%s)
  echo "$c rc=$rc $((e-s))s $(echo "$out" | grep -c '^VIOLATION') viol $(echo "$out" | grep -c '^KNOWN-FINDING') known"
done
